"""C16  Process tomography and gate fidelity agree with the library's own references."""

from __future__ import annotations

import ast

from ..index import walk_no_nested
from ..poly import Poly, madd, mat, mdag, meq, meye, mmul, mscale, msub
from ..report import Result
from ..rules import rc_owner, rk_tables
from ..source import AnalysisError, src

T = "lightworks/tomography/"
MAP, UT, LI, MLE, PT, GF = T + "mappings.py", T + "utils.py", T + "process_tomography_li.py", T + "process_tomography_mle.py", T + "process_tomography.py", T + "gate_fidelity.py"


def det(m):
    n = len(m)
    if n == 1:
        return m[0][0]
    out = Poly()
    for j in range(n):
        minor = [row[:j] + row[j + 1:] for row in m[1:]]
        out = out + (m[0][j] * det(minor)) * (1 if j % 2 == 0 else -1)
    return out


def kron_roles(ctx, fi, role_of):
    """For every np.kron(a, b) in fi: (role(a), role(b), node)."""
    out = []
    for c in walk_no_nested(fi.node):
        if isinstance(c, ast.Call) and src(c.func).endswith("kron") and len(c.args) == 2:
            out.append((role_of(c.args[0]), role_of(c.args[1]), c))
    return out


def _leaf_classifier(extra=None):
    """names the leaves of tomography matrix expressions by their role"""
    from ..conjalg import Atom

    extra = extra or {}

    def classify(e):
        if isinstance(e, ast.Attribute) and e.attr in ("T", "real", "imag"):
            return None
        if isinstance(e, ast.Call):
            f = src(e.func)
            if f.split(".")[-1] in ("identity", "eye"):
                return Atom("I", "realsym")
            if f == "_unvec" and len(e.args) == 1:
                return None
            if f.split(".")[-1] == "_combine_all" and e.args:
                t = src(e.args[0])
                if "RHO" in t:
                    return Atom("rho", "herm")
                if "PAULI" in t:
                    return Atom("P", "herm")
            return None
        if isinstance(e, ast.Subscript):
            sl = e.slice
            if isinstance(sl, ast.Slice) or (isinstance(sl, ast.Tuple) and all(isinstance(x, ast.Slice) for x in sl.elts)):
                return None
            return classify(e.value)
        if isinstance(e, (ast.Name, ast.Attribute)):
            t = src(e)
            if t in extra:
                return extra[t]
            low = t.lower()
            if "rho" in low:
                return Atom("rho", "herm")
            if "pauli" in low or low in ("obs",):
                return Atom("P", "herm")
            if low in ("id_mat", "identity"):
                return Atom("I", "realsym")
        return None

    return classify


def conj_conventions(ctx, res, li, mle_cls, cu):
    """Which operator does each estimator pair with the Choi matrix?  prediction = tr(C . M), M = rho^a (x) P^b."""
    from .. import conjalg as ca
    from ..inline import inlined

    conv = {}
    # ---- linear inversion: rows of the transform matrix and the solved vector
    fn = inlined(li.node)
    rows = [a for a in ast.walk(fn) if isinstance(a, ast.Assign) and isinstance(a.targets[0], ast.Subscript) and isinstance(a.targets[0].slice, ast.Tuple) and len(a.targets[0].slice.elts) == 2 and isinstance(a.targets[0].slice.elts[1], ast.Slice)]
    stores = [a for a in ast.walk(fn) if isinstance(a, ast.Assign) and src(a.targets[0]) == "self._choi"]

    class Solved(ca.Evaluator):
        def ev(self, e):
            if isinstance(e, ast.BinOp) and isinstance(e.op, ast.MatMult) and isinstance(e.left, ast.Call) and src(e.left.func).split(".")[-1] in ("pinv", "inv"):
                return ca.Atom("X", "general")
            if isinstance(e, ast.Call) and src(e.func).split(".")[-1] in ("solve", "lstsq"):
                return ca.Atom("X", "general")
            if isinstance(e, ast.Call) and src(e.func) == "_unvec" and len(e.args) == 1:
                return self.ev(e.args[0])
            if isinstance(e, ast.Subscript) and isinstance(e.slice, ast.Constant) and e.slice.value == 0:
                return self.ev(e.value)  # lstsq(...)[0]
            return super().ev(e)

    try:
        if len(rows) != 1 or len(stores) != 1:
            raise ca.Unknown(f"{len(rows)} row stores, {len(stores)} stores of the result")
        ev = ca.Evaluator(_leaf_classifier())
        row = ca.norm(ev.ev(rows[0].value))
        if not isinstance(row, ca.Vec):
            raise ca.Unknown(f"row is {row}, not a vectorised matrix")
        x = ca.norm(Solved(_leaf_classifier()).ev(stores[0].value))
        if not (isinstance(x, ca.Atom) and x.name == "X"):
            raise ca.Unknown(f"stored result is {x}")
        m = row.m if (x.c ^ x.t) else ca.transpose(row.m)  # tr(K^T X): Choi = X -> M = K^T ; Choi = X^T -> M = K
        conv["LI"] = (ca.parities(ca.norm(m), ["rho", "P"]), rows[0], li, str(ca.norm(m)))
    except ca.Unknown as e:
        res.frozen(False, "K-conj-convention", "LIProcessTomography.process", li.site(), li.qualname, "", f"operator paired with the Choi matrix not derived: {e}", construct="LI")
    # ---- MLE: rows of the A matrix, the model p = A vec(.), and the gradient
    amat = pvec = grad = None
    for ci in mle_cls.values():
        for name, f in ci.methods.items():
            f_in = inlined(f.node)
            rws = [a for a in ast.walk(f_in) if isinstance(a, ast.Assign) and isinstance(a.targets[0], ast.Subscript) and isinstance(a.targets[0].slice, ast.Tuple) and len(a.targets[0].slice.elts) == 2 and isinstance(a.targets[0].slice.elts[1], ast.Slice) and any(isinstance(c, ast.Call) and src(c.func).endswith("kron") for c in ast.walk(a.value))]
            if rws:
                amat = (f, f_in, rws)
    if amat is not None:
        ci = amat[0].cls
        afield = None
        for a in ast.walk(ci.node):
            if isinstance(a, ast.Assign) and isinstance(a.value, ast.Call) and src(a.value.func) == f"self.{amat[0].name}" and isinstance(a.targets[0], ast.Attribute):
                afield = src(a.targets[0])
        extra = {afield: ca.Atom("A", "general"), "choi": ca.Atom("C", "herm")} if afield else {}
        ev = ca.Evaluator(_leaf_classifier(extra))
        try:
            ks = []
            for r in amat[2]:
                v = ca.norm(ev.ev(r.value))
                if not isinstance(v, ca.Vec):
                    raise ca.Unknown(f"row is {v}")
                ks.append(v.m)
            # model: <afield> @ vec(choi^?)
            model = None
            gradient = None
            for name, f in ci.methods.items():
                f_in = inlined(f.node)
                for n in ast.walk(f_in):
                    if isinstance(n, ast.BinOp) and isinstance(n.op, ast.MatMult):
                        try:
                            l = ca.norm(ev.ev(n.left))
                        except ca.Unknown:
                            continue
                        if isinstance(l, ca.Atom) and l.name == "A":
                            if not l.t:
                                try:
                                    r = ca.norm(ev.ev(n.right))
                                except ca.Unknown:
                                    continue
                                if isinstance(r, ca.Vec) and isinstance(r.m, ca.Atom) and r.m.name == "C" and model is None:
                                    model = (r.m, n, f)
                            elif gradient is None:
                                gradient = (l, n, f)
            if model is None:
                raise ca.Unknown("model `A @ vec(choi)` not found")
            cpar = model[0].norm().t  # parity of the Choi matrix inside vec(): 0 -> tr(K^T C), 1 -> tr(K C)
            ms = [ca.norm(k if cpar else ca.transpose(k)) for k in ks]
            ps = [ca.parities(m, ["rho", "P"]) for m in ms]
            if any(p_ != ps[0] for p_ in ps):
                raise ca.Unknown(f"rows of the A matrix use different conventions: {[str(m) for m in ms]}")
            conv["MLE"] = (ps[0], amat[2][0], amat[0], str(ms[0]))
            if gradient is None:
                res.frozen(False, "K-conj-gradient", f"{ci.name}", amat[0].site(), ci.name, "", "gradient expression `A^T @ weights` not found", construct="gradient")
            else:
                l, n, f = gradient
                # G = sum_k w_k unvec(row_k^(conj?)) = sum_k w_k K_k^(c) ; the derivative of sum_k n_k log tr(C M_k) w.r.t. C is sum_k w_k M_k
                gs = [ca.norm(ca.conj(k) if l.c else k) for k in ks]
                gp = ca.parities(gs[0], ["rho", "P"])
                okg = gp == ps[0]
                res.add(okg, "K-conj-gradient", f"{f.qualname}", f.site(n), f.qualname, f"the gradient sums the operators {ms[0]} the model pairs with the Choi matrix",
                        f"the model predicts tr(C . {ms[0]}) but the gradient is built from {gs[0]} (`{src(n.left)}`): for inputs/observables with complex entries (Y basis) the descent direction is the transpose of the true gradient and the iteration stops at its starting point",
                        construct=src(n)[:120])
        except ca.Unknown as e:
            res.frozen(False, "K-conj-convention", "MLE", amat[0].site(), amat[0].qualname, "", f"operator paired with the Choi matrix not derived: {e}", construct="MLE")
    else:
        res.frozen(False, "K-conj-convention", "MLE", MLE, "MLE", "", "A-matrix construction (rows vec(kron(rho, projector))) not found", construct="MLE")
    # ---- reference: outer(vec(U'), conj vec(U')) pairs with rho^T (x) P
    rets = [r for r in walk_no_nested(cu.node) if isinstance(r, ast.Return)]
    try:
        rv = rets[0].value
        if not (isinstance(rv, ast.Call) and src(rv.func).endswith("outer") and len(rv.args) == 2):
            raise ca.Unknown("not an outer product")
        pn = cu.params()[0]
        ev = ca.Evaluator(_leaf_classifier({pn: ca.Atom("U", "general")}))
        a, b = ca.norm(ev.ev(rv.args[0])), ca.norm(ev.ev(rv.args[1]))
        if not (isinstance(a, ca.Vec) and isinstance(b, ca.Vec) and isinstance(a.m, ca.Atom) and isinstance(b.m, ca.Atom)):
            raise ca.Unknown(f"outer({a}, {b})")
        if a.m.t != b.m.t or a.m.c == b.m.c:
            res.bad("K-conj-convention", "choi_from_unitary", cu.site(rets[0]), cu.qualname, f"outer({a}, {b}) is not |U>><<U| (exactly one factor conjugated, both vectorised the same way)", construct=src(rv)[:120])
        else:
            conv["REF"] = ({"rho": 1, "P": 0} if b.m.c else {"rho": 0, "P": 1}, rets[0], cu, f"outer({a}, {b})")
    except (ca.Unknown, IndexError) as e:
        res.frozen(False, "K-conj-convention", "choi_from_unitary", cu.site(), cu.qualname, "", f"reference Choi construction not recognised: {e}", construct="ref")
    names = {"LI": "linear inversion", "MLE": "maximum likelihood", "REF": "choi_from_unitary"}
    def show(p_):
        return "rho" + ("^T" if p_["rho"] else "") + " (x) P" + ("^T" if p_["P"] else "")
    if "REF" in conv:
        for k in ("LI", "MLE"):
            if k in conv:
                p_, node, f, txt = conv[k]
                res.add(p_ == conv["REF"][0], "K-conj-convention", f"{names[k]} vs reference", f.site(node), f.qualname, f"{names[k]} pairs the Choi matrix with {show(p_)}, as the reference does",
                        f"{names[k]} pairs the Choi matrix with {show(p_)} ({txt}) but choi_from_unitary corresponds to {show(conv['REF'][0])}: the estimate is the complex conjugate (transpose) of the reference Choi matrix - invisible for real symmetric gates (H, CNOT), wrong for S, T, Ry",
                        construct=src(node.value)[:160] if hasattr(node, "value") else "")
    elif "LI" in conv and "MLE" in conv:
        res.add(conv["LI"][0] == conv["MLE"][0], "K-conj-convention", "LI vs MLE", conv["MLE"][2].site(conv["MLE"][1]), conv["MLE"][2].qualname, "both estimators pair the Choi matrix with the same operator",
                f"linear inversion pairs the Choi matrix with {show(conv['LI'][0])}, maximum likelihood with {show(conv['MLE'][0])}: one is the conjugate of the other", construct="LI vs MLE")
    res.count("conj_conventions", len(conv))


def check(ctx) -> Result:
    res = Result("C16")
    res.explanation = (
        "Decided: the input-preparation table prepares the density matrices of RHO_MAPPING (C . e e^dagger . C^dagger = RHO[s] for all six labels, circuits folded from the module "
        "text), RHO[P+-] = (I +- PAULI[P]) / 2, the four linear-inversion / gate-fidelity inputs are informationally complete (non-zero determinant of their vectorisations) and the "
        "input lists that must coincide do; role typing of tensor factors: with rows of a process matrix typed OUT and columns IN, the reference Choi matrix (choi_from_unitary, "
        "row-major vectorisation) and the estimators (kron(rho_in, P_out) in LI, kron(rho_in, Pi_out) in MLE) must use one factor order - they do not (known finding F9); the base "
        "circuit is only ever added to fresh circuits. conjugation/transposition parity (conjalg): linear inversion, the MLE model and its gradient, and the reference all pair the Choi matrix with rho^T (x) P. Not decided: MLE convergence and CPTP projection numerics, the gate-fidelity formula."
    )
    res.assumptions = ["single-qubit gate classes mean their textbook matrices (C13)", "numpy flatten() is row-major; np.kron(a, b) puts a's index as the major one"]
    env = rk_tables.eval_module_tables(ctx, MAP)
    if "__unfoldable__" in env:
        raise AnalysisError("mappings.py: " + "; ".join(env["__unfoldable__"][:3]))
    P, R, INP = env.get("PAULI_MAPPING"), env.get("RHO_MAPPING"), env.get("INPUT_MAPPING")
    labels = ["X+", "X-", "Y+", "Y-", "Z+", "Z-"]
    if not (isinstance(R, dict) and isinstance(INP, dict) and set(R) == set(labels) and set(INP) == set(labels)):
        raise AnalysisError("RHO_MAPPING / INPUT_MAPPING not folded to tables over the six labels")
    I2 = meye(2)
    for lab in labels:
        sign = 1 if lab[1] == "+" else -1
        want = mscale(madd(I2, mscale(P[lab[0]], sign)), 0.5)
        res.add(meq(R[lab], want), "K-rho-table", f"RHO_MAPPING[{lab}]", MAP, "RHO_MAPPING", f"= (I {'+' if sign > 0 else '-'} {lab[0]}) / 2", f"RHO_MAPPING['{lab}'] is not the {lab} eigenstate projector (I {'+' if sign > 0 else '-'} {lab[0]})/2", construct=f"RHO[{lab}]")
        st, circ = INP[lab]
        if not (isinstance(st, tuple) and st[0] == "state") or not isinstance(circ, rk_tables.CircVal):
            raise AnalysisError(f"INPUT_MAPPING[{lab}] not folded to (State, circuit)")
        e = [[x] for x in st[1]]
        v = mmul(circ.m, e)
        rho = mmul(v, mdag(v))
        res.add(meq(rho, R[lab]), "K-input-preparation", f"INPUT_MAPPING[{lab}]", MAP, "INPUT_MAPPING", f"prepares the density matrix RHO_MAPPING['{lab}']",
                f"the preparation circuit/input for {lab} does not prepare RHO_MAPPING['{lab}'] (the estimator assumes that density matrix for this input)", construct=f"INPUT[{lab}]")
    # informational completeness and agreement of TOMO_INPUTS
    lists = {}
    for rel in (LI, PT, GF, MLE):
        v = ctx.ix.module(rel).assigns.get("TOMO_INPUTS")
        if not v or not isinstance(v[0], ast.List):
            raise AnalysisError(f"TOMO_INPUTS not found in {rel}")
        lists[rel] = [x.value for x in v[0].elts]
    res.add(lists[LI] == lists[PT] == lists[GF], "K-inputs-agree", "TOMO_INPUTS", LI, "TOMO_INPUTS", "linear inversion, base class and gate fidelity use the same input list", f"input lists differ: {lists[LI]} / {lists[PT]} / {lists[GF]}", construct=str(lists))
    for rel in (LI, GF):
        four = lists[rel]
        ok = len(four) == 4 and all(x in R for x in four)
        d = None
        if ok:
            vecs = [[R[x][i][j] for i in range(2) for j in range(2)] for x in four]
            d = det([list(r) for r in zip(*vecs)])
            ok = not d.is_zero()
        res.add(ok, "K-inputs-complete", f"{rel.split('/')[-1]}:TOMO_INPUTS", rel, "TOMO_INPUTS", "the four input density matrices span the 2x2 matrices (determinant of their vectorisations != 0)",
                f"inputs {four} are not informationally complete (determinant {d})", construct=str(four))
    res.add(sorted(lists[MLE]) == sorted(labels), "K-inputs-complete", "MLE:TOMO_INPUTS", MLE, "TOMO_INPUTS", "MLE uses all six preparations", f"MLE inputs are {lists[MLE]}", construct=str(lists[MLE]))
    # ---- K-order: factor order of the Choi matrix
    def role(e):
        s = src(e)
        if "rho" in s.lower():
            return "IN"
        if "pauli" in s.lower() or "obs" in s or "id_mat" in s or "meas" in s:
            return "OUT"
        return "?"
    li = ctx.func(LI, "LIProcessTomography.process")
    orders = {}
    kr = kron_roles(ctx, li, role)
    if not kr:
        raise AnalysisError("LI: kron call not found")
    orders["LI"] = (kr[0][0] + "x" + kr[0][1], kr[0][2], li)
    mle_cls = ctx.ix.module(MLE).classes
    amat = None
    for ci in mle_cls.values():
        for f in ci.all_funcs():
            k = [x for x in kron_roles(ctx, f, role) if "?" not in (x[0], x[1])]
            if k:
                amat = (f, k)
    if amat is None:
        raise AnalysisError("MLE: kron(rho, projector) not found")
    okm = len({a + "x" + b for a, b, _ in amat[1]}) == 1
    orders["MLE"] = (amat[1][0][0] + "x" + amat[1][0][1], amat[1][0][2], amat[0])
    cu0 = ctx.func(UT, "choi_from_unitary")
    from ..inline import inl as _inl
    from .. import conjalg as _ca
    cu = _inl(cu0)
    rets = [r for r in walk_no_nested(cu.node) if isinstance(r, ast.Return)]
    rv = rets[0].value if rets else None
    ref_order = "?"
    if isinstance(rv, ast.Call) and src(rv.func).endswith("outer") and len(rv.args) == 2:
        pn_ = cu0.params()[0]
        # the parameter may be re-bound to np.array(parameter): same matrix
        class _Ev(_ca.Evaluator):
            def ev(self, e):
                if isinstance(e, ast.Call) and src(e.func).split(".")[-1] in ("flatten", "ravel") and any(k.arg == "order" and isinstance(k.value, ast.Constant) and k.value.value == "F" for k in e.keywords) or (isinstance(e, ast.Call) and src(e.func).split(".")[-1] in ("flatten", "ravel") and e.args and isinstance(e.args[0], ast.Constant) and e.args[0].value == "F"):
                    return _ca.Vec(_ca.transpose(self.ev(e.func.value)))
                if isinstance(e, ast.Call) and src(e.func).split(".")[-1] == "reshape" and isinstance(e.func, ast.Attribute) and len(e.args) == 1 and src(e.args[0]) in ("-1", "(-1,)"):
                    return _ca.Vec(self.ev(e.func.value))
                return super().ev(e)
        evr = _Ev(_leaf_classifier({pn_: _ca.Atom("U", "general")}))
        try:
            a_ = _ca.norm(evr.ev(rv.args[0]))
            if isinstance(a_, _ca.Vec) and isinstance(a_.m, _ca.Atom) and a_.m.name == "U":
                ref_order = "INxOUT" if a_.m.t else "OUTxIN"  # row-major vec(U): (row = output, column = input)
        except _ca.Unknown:
            pass
    if ref_order == "?":
        res.frozen(False, "K-order-choi-factors", "choi_from_unitary vs estimators", cu0.site(), cu0.qualname, "", "vectorisation of the unitary in choi_from_unitary not recognised", construct=src(rv)[:120] if rv is not None else "")
    res.add(okm and orders["LI"][0] == orders["MLE"][0], "K-order-estimators-agree", "LI vs MLE", orders["LI"][2].site(orders["LI"][1]), "LIProcessTomography.process", f"both estimators build Choi matrices in {orders['LI'][0]} factor order",
            f"LI uses {orders['LI'][0]} but MLE uses {orders['MLE'][0]}", construct=src(orders["LI"][1]))
    if ref_order != "?":
      res.add(ref_order == orders["LI"][0], "K-order-choi-factors", "choi_from_unitary vs estimators", cu0.site(rets[0]), cu0.qualname, f"reference and estimators use {ref_order}",
            f"choi_from_unitary vectorises the unitary row-major, i.e. in {ref_order} factor order, while the estimators reconstruct in {orders['LI'][0]} order: for a non-symmetric unitary the linear-inversion result equals choi_from_unitary(U.T), not choi_from_unitary(U)",
            construct=f"reference {ref_order} estimators {orders['LI'][0]} :: " + src(rets[0].value))
    conj_conventions(ctx, res, li, mle_cls, cu)
    # ---- experiment construction
    PTc = ctx.ix.module(PT).classes.get("ProcessTomography")
    cc = PTc.methods["_create_circuit_and_input"]
    tc = src(cc.node).replace(" ", "")
    res.frozen("circ=Circuit(self.base_circuit.input_modes)" in tc and "in_state+=INPUT_MAPPING[op][0]" in tc and "circ.add(INPUT_MAPPING[op][1],2*i)" in tc and "circ.add(self.base_circuit)" in tc and "circ.add(MEASUREMENT_MAPPING[op],2*i)" in tc,
               "I-experiment-structure", "ProcessTomography._create_circuit_and_input", cc.site(), cc.qualname, "fresh circuit: preparations on (2i, 2i+1), then the base circuit, then the measurement basis changes", "experiment construction idiom not recognised", construct="create")
    order = [c.lineno for c in walk_no_nested(cc.node) if isinstance(c, ast.Call) and src(c.func) == "circ.add"]
    calls = sorted([(c.lineno, src(c.args[0])) for c in walk_no_nested(cc.node) if isinstance(c, ast.Call) and src(c.func) == "circ.add"])
    def _origin(text, depth=0):
        """which table a value comes from, through loop variables and single-assignment locals"""
        for tag, key in (("INPUT", "INPUT_MAPPING"), ("BASE", "base_circuit"), ("MEAS", "MEASUREMENT_MAPPING")):
            if key in text:
                return tag
        if depth > 3:
            return "?"
        for nm in {x.id for x in ast.walk(ast.parse(text, mode="eval")) if isinstance(x, ast.Name)} if text else set():
            for n_ in ast.walk(cc.node):
                if isinstance(n_, (ast.For, ast.comprehension)) and any(isinstance(x, ast.Name) and x.id == nm for x in ast.walk(n_.target)):
                    r_ = _origin(src(n_.iter), depth + 1)
                    if r_ != "?":
                        return r_
                if isinstance(n_, ast.Assign) and any(isinstance(x, ast.Name) and x.id == nm for t_ in n_.targets for x in ast.walk(t_)):
                    r_ = _origin(src(n_.value), depth + 1)
                    if r_ != "?":
                        return r_
        return "?"
    seq = [_origin(s) for _, s in calls]
    if "?" in seq or not seq:
        res.frozen(False, "I-experiment-structure", "order", cc.site(), cc.qualname, "", f"origin of the circuits added to the experiment not traced: {seq}", construct=str(seq))
    else:
        res.add(seq == ["INPUT", "BASE", "MEAS"], "I-experiment-structure", "order", cc.site(), cc.qualname, "preparation, process, measurement - in that order", f"experiment circuit is assembled in the order {seq}", construct=str(seq))
    # nothing is carried over between process() calls
    from ..rules import rf_cache
    for rel_, cn_ in ((LI, "LIProcessTomography"), (GF, "GateFidelity"), (MLE, "MLEProcessTomography")):
        ci_ = ctx.ix.module(rel_).classes.get(cn_)
        if ci_ is None or "process" not in ci_.methods:
            raise AnalysisError(f"{cn_}.process not found")
        rf_cache.f3_result_fields(ctx, res, ci_, ci_.methods["process"])
    n = rc_owner.c1_fields(ctx, res, [PTc])
    res.floor("held base circuit", n, 1)
    # the MLE iteration starts from its own fresh matrix and keeps nothing on the algorithm object
    alg = ctx.ix.module(MLE).classes.get("MLETomographyAlgorithm")
    if alg is not None and "pgdb" in alg.methods:
        rc_owner.c7_stateless_operation(ctx, res, alg.methods["pgdb"])
    # gate fidelity: sum_j tr(U U_j^dagger U^dagger E(U_j)) with U the *target* (Nielsen's formula); the trace is cyclic
    from .. import conjalg as _cg
    from ..inline import inlined as _inl2
    gfc = ctx.ix.module(GF).classes.get("GateFidelity")
    gproc = gfc.methods.get("process") if gfc else None
    if gproc is None:
        res.frozen(False, "K-gate-fidelity-trace", "GateFidelity.process", GF, "GateFidelity", "", "GateFidelity.process not found", construct="")
    else:
        gfn = _inl2(gproc.node)
        tparam = next((p_ for p_ in gproc.params() if "target" in p_), None)
        traces = [c for c in ast.walk(gfn) if isinstance(c, ast.Call) and src(c.func).split(".")[-1] == "trace" and c.args]
        loopvars = {x.id for l in ast.walk(gfn) if isinstance(l, (ast.For, ast.comprehension)) for x in ast.walk(l.target) if isinstance(x, ast.Name)}

        def _flat(v):
            if isinstance(v, _cg.Prod):
                out = []
                for f_ in v.factors:
                    out += _flat(f_)
                return out
            return [v]

        def _cls(e):
            if isinstance(e, ast.Name):
                if e.id == tparam or "target" in e.id:
                    return _cg.Atom("U", "general")
                low = e.id.lower()
                if low.startswith("u") and e.id in loopvars:
                    return _cg.Atom("B", "general")
                return _cg.Atom("E", "general")
            if isinstance(e, ast.Call) and src(e.func).split(".")[-1] in ("sum", "einsum", "tensordot", "_calculate_density_matrix"):
                return _cg.Atom("E", "general")  # the measured process applied to a basis element (a linear combination)
            if isinstance(e, ast.Subscript) and not isinstance(e.slice, ast.Slice):
                return _cls(e.value) if isinstance(e.value, ast.Name) else _cg.Atom("E", "general")
            return None

        decided_gf = False
        for tr_ in traces:
            try:
                v = _cg.norm(_cg.Evaluator(_cls).ev(tr_.args[0]))
            except _cg.Unknown:
                continue
            fac = _flat(v)
            if len(fac) != 4 or not all(isinstance(f_, _cg.Atom) for f_ in fac):
                continue
            names_ = [f_.name for f_ in fac]
            if sorted(names_) != ["B", "E", "U", "U"]:
                continue
            # rotate (cyclic trace) so that E comes last
            k = names_.index("E")
            rot = fac[k + 1:] + fac[:k + 1]
            sig = [(f_.name, f_.c, f_.t) for f_ in rot]
            want = [("U", 0, 0), ("B", 1, 1), ("U", 1, 1), ("E", 0, 0)]
            decided_gf = True
            res.add(sig == want, "K-gate-fidelity-trace", "GateFidelity.process", gproc.site(tr_), gproc.qualname, "the summand is tr(U U_j^dagger U^dagger E(U_j)) with U the target",
                    "the summand is tr(" + " . ".join(map(str, rot)) + "), not tr(U U_j^dagger U^dagger E(U_j)): the target and its adjoint are on the wrong sides, i.e. the fidelity is computed against the adjoint of the target - invisible for Hermitian targets (H, CNOT), wrong for S, T", construct=src(tr_)[:160])
        if not decided_gf:
            res.frozen(False, "K-gate-fidelity-trace", "GateFidelity.process", gproc.site(), gproc.qualname, "", "trace summand of the fidelity formula not recognised", construct="")
    from ..rules import rz_falsy
    nz = rz_falsy.none_checks(ctx, res, "C16", ())
    res.floor("Z functions scanned", nz, 3)
    return res
