"""C16  Process tomography and gate fidelity agree with the library's own references."""

from __future__ import annotations

import ast

from ..index import walk_no_nested
from ..poly import Poly, madd, mat, mdag, meq, meye, mmul, mscale, msub
from ..report import Result
from ..rules import rc_owner, rk_tables
from ..source import AnalysisError, src

T = "lightworks/tomography/"
MAP, UT, LI, MLE, PT, GF = T + "mappings.py", T + "utils.py", T + "process_tomography_li.py", T + "process_tomography_mle.py", T + "process_tomography.py", T + "gate_fidelity.py"


def det(m):
    n = len(m)
    if n == 1:
        return m[0][0]
    out = Poly()
    for j in range(n):
        minor = [row[:j] + row[j + 1:] for row in m[1:]]
        out = out + (m[0][j] * det(minor)) * (1 if j % 2 == 0 else -1)
    return out


def kron_roles(ctx, fi, role_of):
    """For every np.kron(a, b) in fi: (role(a), role(b), node)."""
    out = []
    for c in walk_no_nested(fi.node):
        if isinstance(c, ast.Call) and src(c.func).endswith("kron") and len(c.args) == 2:
            out.append((role_of(c.args[0]), role_of(c.args[1]), c))
    return out


def check(ctx) -> Result:
    res = Result("C16")
    res.explanation = (
        "Decided: the input-preparation table prepares the density matrices of RHO_MAPPING (C . e e^dagger . C^dagger = RHO[s] for all six labels, circuits folded from the module "
        "text), RHO[P+-] = (I +- PAULI[P]) / 2, the four linear-inversion / gate-fidelity inputs are informationally complete (non-zero determinant of their vectorisations) and the "
        "input lists that must coincide do; role typing of tensor factors: with rows of a process matrix typed OUT and columns IN, the reference Choi matrix (choi_from_unitary, "
        "row-major vectorisation) and the estimators (kron(rho_in, P_out) in LI, kron(rho_in, Pi_out) in MLE) must use one factor order - they do not (known finding F9); the base "
        "circuit is only ever added to fresh circuits. Not decided: conjugation/transposition conventions for complex gates, MLE convergence and CPTP projection, the gate-fidelity formula."
    )
    res.assumptions = ["single-qubit gate classes mean their textbook matrices (C13)", "numpy flatten() is row-major; np.kron(a, b) puts a's index as the major one"]
    env = rk_tables.eval_module_tables(ctx, MAP)
    if "__unfoldable__" in env:
        raise AnalysisError("mappings.py: " + "; ".join(env["__unfoldable__"][:3]))
    P, R, INP = env.get("PAULI_MAPPING"), env.get("RHO_MAPPING"), env.get("INPUT_MAPPING")
    labels = ["X+", "X-", "Y+", "Y-", "Z+", "Z-"]
    if not (isinstance(R, dict) and isinstance(INP, dict) and set(R) == set(labels) and set(INP) == set(labels)):
        raise AnalysisError("RHO_MAPPING / INPUT_MAPPING not folded to tables over the six labels")
    I2 = meye(2)
    for lab in labels:
        sign = 1 if lab[1] == "+" else -1
        want = mscale(madd(I2, mscale(P[lab[0]], sign)), 0.5)
        res.add(meq(R[lab], want), "K-rho-table", f"RHO_MAPPING[{lab}]", MAP, "RHO_MAPPING", f"= (I {'+' if sign > 0 else '-'} {lab[0]}) / 2", f"RHO_MAPPING['{lab}'] is not the {lab} eigenstate projector (I {'+' if sign > 0 else '-'} {lab[0]})/2", construct=f"RHO[{lab}]")
        st, circ = INP[lab]
        if not (isinstance(st, tuple) and st[0] == "state") or not isinstance(circ, rk_tables.CircVal):
            raise AnalysisError(f"INPUT_MAPPING[{lab}] not folded to (State, circuit)")
        e = [[x] for x in st[1]]
        v = mmul(circ.m, e)
        rho = mmul(v, mdag(v))
        res.add(meq(rho, R[lab]), "K-input-preparation", f"INPUT_MAPPING[{lab}]", MAP, "INPUT_MAPPING", f"prepares the density matrix RHO_MAPPING['{lab}']",
                f"the preparation circuit/input for {lab} does not prepare RHO_MAPPING['{lab}'] (the estimator assumes that density matrix for this input)", construct=f"INPUT[{lab}]")
    # informational completeness and agreement of TOMO_INPUTS
    lists = {}
    for rel in (LI, PT, GF, MLE):
        v = ctx.ix.module(rel).assigns.get("TOMO_INPUTS")
        if not v or not isinstance(v[0], ast.List):
            raise AnalysisError(f"TOMO_INPUTS not found in {rel}")
        lists[rel] = [x.value for x in v[0].elts]
    res.add(lists[LI] == lists[PT] == lists[GF], "K-inputs-agree", "TOMO_INPUTS", LI, "TOMO_INPUTS", "linear inversion, base class and gate fidelity use the same input list", f"input lists differ: {lists[LI]} / {lists[PT]} / {lists[GF]}", construct=str(lists))
    for rel in (LI, GF):
        four = lists[rel]
        ok = len(four) == 4 and all(x in R for x in four)
        d = None
        if ok:
            vecs = [[R[x][i][j] for i in range(2) for j in range(2)] for x in four]
            d = det([list(r) for r in zip(*vecs)])
            ok = not d.is_zero()
        res.add(ok, "K-inputs-complete", f"{rel.split('/')[-1]}:TOMO_INPUTS", rel, "TOMO_INPUTS", "the four input density matrices span the 2x2 matrices (determinant of their vectorisations != 0)",
                f"inputs {four} are not informationally complete (determinant {d})", construct=str(four))
    res.add(sorted(lists[MLE]) == sorted(labels), "K-inputs-complete", "MLE:TOMO_INPUTS", MLE, "TOMO_INPUTS", "MLE uses all six preparations", f"MLE inputs are {lists[MLE]}", construct=str(lists[MLE]))
    # ---- K-order: factor order of the Choi matrix
    def role(e):
        s = src(e)
        if "rho" in s.lower():
            return "IN"
        if "pauli" in s.lower() or "obs" in s or "id_mat" in s or "meas" in s:
            return "OUT"
        return "?"
    li = ctx.func(LI, "LIProcessTomography.process")
    orders = {}
    kr = kron_roles(ctx, li, role)
    if not kr:
        raise AnalysisError("LI: kron call not found")
    orders["LI"] = (kr[0][0] + "x" + kr[0][1], kr[0][2], li)
    mle_cls = ctx.ix.module(MLE).classes
    amat = None
    for ci in mle_cls.values():
        for f in ci.all_funcs():
            k = [x for x in kron_roles(ctx, f, role) if "?" not in (x[0], x[1])]
            if k:
                amat = (f, k)
    if amat is None:
        raise AnalysisError("MLE: kron(rho, projector) not found")
    okm = len({a + "x" + b for a, b, _ in amat[1]}) == 1
    orders["MLE"] = (amat[1][0][0] + "x" + amat[1][0][1], amat[1][0][2], amat[0])
    cu = ctx.func(UT, "choi_from_unitary")
    rets = [r for r in walk_no_nested(cu.node) if isinstance(r, ast.Return)]
    rv = rets[0].value
    ref_order = "?"
    if isinstance(rv, ast.Call) and src(rv.func).endswith("outer") and len(rv.args) == 2:
        a = src(rv.args[0]).replace(" ", "")
        if a in ("unitary.flatten()", "unitary.ravel()", "_vec(unitary)", "unitary.reshape(-1)"):
            ref_order = "OUTxIN"  # row-major: (row = output, column = input)
        elif a in ("unitary.T.flatten()", "unitary.flatten(order='F')", "unitary.flatten('F')", "_vec(unitary.T)", "unitary.T.ravel()", "unitary.transpose().flatten()"):
            ref_order = "INxOUT"
    if ref_order == "?":
        raise AnalysisError("choi_from_unitary: vectorisation idiom not recognised")
    res.add(okm and orders["LI"][0] == orders["MLE"][0], "K-order-estimators-agree", "LI vs MLE", orders["LI"][2].site(orders["LI"][1]), "LIProcessTomography.process", f"both estimators build Choi matrices in {orders['LI'][0]} factor order",
            f"LI uses {orders['LI'][0]} but MLE uses {orders['MLE'][0]}", construct=src(orders["LI"][1]))
    res.add(ref_order == orders["LI"][0], "K-order-choi-factors", "choi_from_unitary vs estimators", cu.site(rets[0]), cu.qualname, f"reference and estimators use {ref_order}",
            f"choi_from_unitary vectorises the unitary row-major, i.e. in {ref_order} factor order, while the estimators reconstruct in {orders['LI'][0]} order: for a non-symmetric unitary the linear-inversion result equals choi_from_unitary(U.T), not choi_from_unitary(U)",
            construct=src(rets[0].value))
    # ---- experiment construction
    PTc = ctx.ix.module(PT).classes.get("ProcessTomography")
    cc = PTc.methods["_create_circuit_and_input"]
    tc = src(cc.node).replace(" ", "")
    res.frozen("circ=Circuit(self.base_circuit.input_modes)" in tc and "in_state+=INPUT_MAPPING[op][0]" in tc and "circ.add(INPUT_MAPPING[op][1],2*i)" in tc and "circ.add(self.base_circuit)" in tc and "circ.add(MEASUREMENT_MAPPING[op],2*i)" in tc,
               "I-experiment-structure", "ProcessTomography._create_circuit_and_input", cc.site(), cc.qualname, "fresh circuit: preparations on (2i, 2i+1), then the base circuit, then the measurement basis changes", "experiment construction idiom not recognised", construct="create")
    order = [c.lineno for c in walk_no_nested(cc.node) if isinstance(c, ast.Call) and src(c.func) == "circ.add"]
    calls = sorted([(c.lineno, src(c.args[0])) for c in walk_no_nested(cc.node) if isinstance(c, ast.Call) and src(c.func) == "circ.add"])
    seq = ["INPUT" if "INPUT_MAPPING" in s else "BASE" if "base_circuit" in s else "MEAS" if "MEASUREMENT_MAPPING" in s else "?" for _, s in calls]
    res.add(seq == ["INPUT", "BASE", "MEAS"], "I-experiment-structure", "order", cc.site(), cc.qualname, "preparation, process, measurement - in that order", f"experiment circuit is assembled in the order {seq}", construct=str(seq))
    # nothing is carried over between process() calls
    from ..rules import rf_cache
    for rel_, cn_ in ((LI, "LIProcessTomography"), (GF, "GateFidelity")):
        ci_ = ctx.ix.module(rel_).classes.get(cn_)
        if ci_ is None or "process" not in ci_.methods:
            raise AnalysisError(f"{cn_}.process not found")
        rf_cache.f3_result_fields(ctx, res, ci_, ci_.methods["process"])
    n = rc_owner.c1_fields(ctx, res, [PTc])
    res.floor("held base circuit", n, 1)
    return res
