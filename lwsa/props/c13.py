"""C13  The qubit gate library implements the gates it names."""

from __future__ import annotations

import ast

from ..index import walk_no_nested
from ..report import Result
from ..rules import rk_tables
from ..source import AnalysisError, src

TQ = "lightworks/qubit/gates/two_qubit_gates.py"
T3 = "lightworks/qubit/gates/three_qubit_gates.py"


def conjugation(ctx, res: Result, rel: str, cname: str, inner: str, n_targets: int) -> None:
    ci = ctx.ix.module(rel).classes.get(cname)
    if ci is None:
        raise AnalysisError(f"{cname} not found")
    from ..inline import with_helpers
    ini = with_helpers(ctx, ci.methods["__init__"], only_private=True)
    adds = sorted([c for c in walk_no_nested(ini.node) if isinstance(c, ast.Call) and isinstance(c.func, ast.Attribute) and c.func.attr == "add" and isinstance(c.func.value, ast.Name) and c.func.value.id != "self"], key=lambda c: c.lineno)
    seq = [(src(c.args[0]), src(c.args[1]) if len(c.args) > 1 else "0") for c in adds]
    ok = len(seq) == 3 and seq[0][0] == "H()" and seq[2][0] == "H()" and seq[1] == (f"{inner}()", "0") and seq[0][1] == seq[2][1] and seq[0][1].replace(" ", "") in ("2*target_qubit", "target_qubit*2")
    same_circ = len({src(c.func.value) for c in adds}) == 1
    res.add(ok and same_circ, "K-cnot-is-h-cz-h", cname, ini.site(), ini.qualname, f"H on modes 2*target_qubit, {inner} at 0, H on the same modes",
            f"{cname} is not H - {inner} - H on one and the same target expression 2*target_qubit: {seq}", construct=str(seq))
    # the grouped inner circuit is what is added to self
    fin = [c for c in walk_no_nested(ini.node) if isinstance(c, ast.Call) and src(c.func) == "self.add"]
    res.add(len(fin) == 1 and bool(adds) and src(fin[0].args[0]) == src(adds[0].func.value) and src(fin[0].args[1]) == "0", "K-cnot-is-h-cz-h", cname + ":placed", ini.site(), ini.qualname, "the conjugated circuit is placed at mode 0", "the conjugated circuit is not what is added at mode 0", construct=src(fin[0]) if fin else "")
    # invalid target refused before construction
    guard = [n for n in walk_no_nested(ini.node) if isinstance(n, ast.If) and any(isinstance(b, ast.Raise) for b in n.body) and "target_qubit" in src(n.test)]
    allowed = "[" + ", ".join(str(i) for i in range(n_targets)) + "]"
    okg = bool(guard) and src(guard[0].test).replace(" ", "") == f"target_qubitnotin{allowed}".replace(" ", "") and all(guard[0].lineno < c.lineno for c in adds)
    res.add(okg, "K-target-validated", cname, ini.site(), ini.qualname, f"target_qubit outside {allowed} is refused before anything is built", "invalid target_qubit values are not refused before construction", construct=src(guard[0].test) if guard else "")


def check(ctx) -> Result:
    res = Result("C13")
    res.explanation = (
        "Decided: the 14 single-qubit gate literals (I,H,X,Y,Z,S,Sadj,T,Tadj,SX,P,Rx,Ry,Rz) are folded from the source text into polynomials in "
        "cos(theta/2), sin(theta/2) and shown to be unit-modulus multiples of the textbook matrices for EVERY angle (identity of normal forms: cross-ratios "
        "and M^dagger M = I); CNOT, CNOT_Heralded and CCNOT are H - (CZ | CZ_Heralded | CCZ) - H on one and the same expression 2*target_qubit placed at mode 0, "
        "with invalid targets refused before construction; SWAP exchanges rail 0 with rail 0 and rail 1 with rail 1 of the two qubits. Not decided: the CZ, "
        "CZ_Heralded and CCZ matrices, their herald placements and the success probabilities 1/9, 1/16, 1/72 (these need permanents of the folded matrices)."
    )
    res.assumptions = ["reference matrices of the named gates (textbook definitions, qiskit conventions) in rk_tables.py", "Unitary(M) implements M on its modes (C01)"]
    rk_tables.single_qubit_gates(ctx, res)
    res.floor("gate literals", sum(1 for o in res.obligations if o.rule == "K-gate-literal"), 14)
    conjugation(ctx, res, TQ, "CNOT", "CZ", 2)
    conjugation(ctx, res, TQ, "CNOT_Heralded", "CZ_Heralded", 2)
    conjugation(ctx, res, T3, "CCNOT", "CCZ", 3)
    sw = ctx.ix.module(TQ).classes.get("SWAP")
    ini = sw.methods["__init__"]
    # SWAP: the dictionary handed to mode_swaps, with the two qubits bound to symbolic rails (A0, A1), (B0, B1)
    from .. import symseq as _ss
    ms = [c for c in walk_no_nested(ini.node) if isinstance(c, ast.Call) and src(c.func) == "self.mode_swaps" and c.args]
    qp = [p_ for p_ in ini.params() if p_ != "self"]
    if len(ms) != 1 or len(qp) != 2:
        res.frozen(False, "K-swap-rails", "SWAP", ini.site(), ini.qualname, "", "single call of self.mode_swaps(<dict>) not recognised", construct="")
    else:
        ev_ = _ss.Eval({qp[0]: ["A0", "A1"], qp[1]: ["B0", "B1"]})
        par_s = {c_: n_ for n_ in ast.walk(ini.node) for c_ in ast.iter_child_nodes(n_)}
        st_ms = ms[0]
        while not isinstance(st_ms, ast.stmt):
            st_ms = par_s[st_ms]
        before = []
        for st_ in ini.node.body:
            if st_ is st_ms:
                break
            before.append(st_)
        try:
            ev_.run(before)
            d_ = ev_.ev(ms[0].args[0])
            if not isinstance(d_, dict):
                raise _ss.Unknown("argument is not a dictionary")
            want = {"A0": "B0", "B0": "A0", "A1": "B1", "B1": "A1"}
            res.add(d_ == want, "K-swap-rails", "SWAP", ini.site(ms[0]), ini.qualname, "rail k of qubit 1 is exchanged with rail k of qubit 2",
                    f"SWAP does not exchange equal rails of the two qubits: with qubit_1 = (A0, A1), qubit_2 = (B0, B1) the swap table is {d_}", construct=str(d_))
        except _ss.Unknown as e_:
            res.frozen(False, "K-swap-rails", "SWAP", ini.site(ms[0]), ini.qualname, "", f"swap table not derived: {e_}", construct=src(ms[0].args[0])[:100])
    from ..rules import rz_falsy
    nz = rz_falsy.none_checks(ctx, res, "C13", ())
    res.floor("Z functions scanned", nz, 3)
    return res
