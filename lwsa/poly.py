"""Polynomials with complex coefficients over named real generators, with rewrite rules
(e.g. s**2 -> 1 - c**2).  Equality of normal forms decides an identity for all parameter values."""

from __future__ import annotations

EPS = 1e-11


class Poly:
    __slots__ = ("t",)
    rules: dict[str, "Poly"] = {}  # generator -> replacement for generator**2 (set by the user of the ring)

    def __init__(self, terms=None):
        self.t = {}
        if terms:
            for m, c in terms.items():
                if abs(c) > EPS:
                    self.t[m] = c

    # ---- constructors
    @staticmethod
    def const(c) -> "Poly":
        return Poly({(): complex(c)})

    @staticmethod
    def gen(name: str) -> "Poly":
        return Poly({((name, 1),): 1 + 0j})

    # ---- arithmetic
    def __add__(self, o):
        o = _p(o)
        t = dict(self.t)
        for m, c in o.t.items():
            t[m] = t.get(m, 0) + c
        return Poly(t)

    __radd__ = __add__

    def __neg__(self):
        return Poly({m: -c for m, c in self.t.items()})

    def __sub__(self, o):
        return self + (-_p(o))

    def __rsub__(self, o):
        return _p(o) - self

    def __mul__(self, o):
        o = _p(o)
        t = {}
        for m1, c1 in self.t.items():
            for m2, c2 in o.t.items():
                d = dict(m1)
                for g, e in m2:
                    d[g] = d.get(g, 0) + e
                m = tuple(sorted(d.items()))
                t[m] = t.get(m, 0) + c1 * c2
        return Poly(t).reduce()

    __rmul__ = __mul__

    def __pow__(self, n):
        if isinstance(n, Poly):
            if not n.is_const():
                raise ValueError("non-constant exponent")
            n = n.value()
        if isinstance(n, complex):
            if abs(n.imag) > EPS:
                raise ValueError("complex exponent")
            n = n.real
        if self.is_const():
            return Poly.const(self.value() ** n)
        if abs(n - round(n)) > EPS or n < 0:
            raise ValueError("non-integer power of a polynomial")
        r = Poly.const(1)
        for _ in range(int(round(n))):
            r = r * self
        return r

    def __truediv__(self, o):
        o = _p(o)
        if not o.is_const():
            raise ValueError("division by a non-constant polynomial")
        v = o.value()
        if abs(v) < EPS:
            raise ZeroDivisionError
        return Poly({m: c / v for m, c in self.t.items()})

    def __rtruediv__(self, o):
        return _p(o) / self

    def conj(self):
        return Poly({m: c.conjugate() for m, c in self.t.items()})

    # ---- normal form
    def reduce(self) -> "Poly":
        if not Poly.rules:
            return self
        cur = self
        for _ in range(20):
            changed = False
            out = Poly()
            acc = {}
            for m, c in cur.t.items():
                hit = None
                for g, e in m:
                    if g in Poly.rules and e >= 2:
                        hit = (g, e)
                        break
                if hit is None:
                    acc[m] = acc.get(m, 0) + c
                    continue
                changed = True
                g, e = hit
                rest = tuple((gg, ee) for gg, ee in m if gg != g) + (((g, e - 2),) if e - 2 > 0 else ())
                base = Poly({tuple(sorted(rest)): c})
                prod = _mul_noreduce(base, Poly.rules[g])
                for mm, cc in prod.t.items():
                    acc[mm] = acc.get(mm, 0) + cc
            cur = Poly(acc)
            if not changed:
                break
        return cur

    def is_const(self) -> bool:
        return all(m == () for m in self.t)

    def value(self) -> complex:
        return self.t.get((), 0j)

    def is_zero(self) -> bool:
        return not self.t

    def __eq__(self, o):
        return (self - _p(o)).is_zero()

    def __hash__(self):
        return hash(tuple(sorted((m, round(c.real, 9), round(c.imag, 9)) for m, c in self.t.items())))

    def subs(self, values: dict) -> "Poly":
        out = Poly()
        for m, c in self.t.items():
            term = Poly.const(c)
            for g, e in m:
                if g in values:
                    term = term * (_p(values[g]) ** e)
                else:
                    term = term * (Poly.gen(g) ** e)
            out = out + term
        return out

    def gens(self) -> set[str]:
        return {g for m in self.t for g, _e in m}

    def __repr__(self):
        if not self.t:
            return "0"
        parts = []
        for m, c in sorted(self.t.items()):
            cs = f"{c.real:.6g}" if abs(c.imag) < EPS else (f"{c.imag:.6g}j" if abs(c.real) < EPS else f"({c.real:.6g}{c.imag:+.6g}j)")
            ms = "*".join(g if e == 1 else f"{g}^{e}" for g, e in m)
            parts.append(cs + ("*" + ms if ms else ""))
        return " + ".join(parts)


def _mul_noreduce(a: Poly, b: Poly) -> Poly:
    t = {}
    for m1, c1 in a.t.items():
        for m2, c2 in b.t.items():
            d = dict(m1)
            for g, e in m2:
                d[g] = d.get(g, 0) + e
            m = tuple(sorted(d.items()))
            t[m] = t.get(m, 0) + c1 * c2
    return Poly(t)


def _p(x) -> Poly:
    return x if isinstance(x, Poly) else Poly.const(x)


# ---- matrices of polynomials (lists of rows)
def mat(rows):
    return [[_p(x) for x in r] for r in rows]


def mshape(a):
    return (len(a), len(a[0]) if a else 0)


def madd(a, b):
    return [[x + y for x, y in zip(r, s)] for r, s in zip(a, b)]


def msub(a, b):
    return [[x - y for x, y in zip(r, s)] for r, s in zip(a, b)]


def mscale(a, k):
    return [[x * k for x in r] for r in a]


def mmul(a, b):
    n, k = mshape(a)
    k2, m = mshape(b)
    if k != k2:
        raise ValueError(f"shape mismatch {mshape(a)} @ {mshape(b)}")
    return [[sum((a[i][t] * b[t][j] for t in range(k)), Poly()) for j in range(m)] for i in range(n)]


def mT(a):
    return [list(r) for r in zip(*a)]


def mconj(a):
    return [[x.conj() for x in r] for r in a]


def mdag(a):
    return mconj(mT(a))


def meye(n):
    return [[Poly.const(1 if i == j else 0) for j in range(n)] for i in range(n)]


def mkron(a, b):
    ra, ca = mshape(a)
    rb, cb = mshape(b)
    return [[a[i // rb][j // cb] * b[i % rb][j % cb] for j in range(ca * cb)] for i in range(ra * rb)]


def meq(a, b):
    return mshape(a) == mshape(b) and all(x == y for r, s in zip(a, b) for x, y in zip(r, s))


def proportional_unit_modulus(m, r) -> tuple[bool, str]:
    """m == lambda * r with |lambda| == 1, as polynomial identities (all parameter values)."""
    if mshape(m) != mshape(r):
        return False, f"shape {mshape(m)} vs {mshape(r)}"
    n, k = mshape(m)
    idx = [(i, j) for i in range(n) for j in range(k)]
    for (i, j) in idx:
        for (a, b) in idx:
            if not (m[i][j] * r[a][b] == m[a][b] * r[i][j]):
                return False, f"entries [{i},{j}] and [{a},{b}] are not in the ratio of the named gate"
    if not meq(mmul(mdag(m), m), meye(k)):
        return False, "matrix is not unitary (M^dagger M != I), so the common scalar does not have modulus 1"
    if all(x.is_zero() for row in m for x in row):
        return False, "zero matrix"
    return True, ""
