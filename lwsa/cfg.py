"""Statement-level control-flow graph for one function, evaluation-ordered events
inside a node, dominators and a generic forward dataflow solver.

Nodes are: simple statements, branch tests (if/while), loop headers (for),
except-handler entries, plus ENTRY, EXIT (normal return / fall off the end) and
REXIT (exception leaves the function).  Edge labels: 'next', 'true', 'false',
'loop', 'exit', 'exc'.
"""

from __future__ import annotations

import ast
from dataclasses import dataclass, field

from .source import AnalysisError


@dataclass
class Node:
    id: int
    kind: str  # entry | exit | rexit | stmt | test | for | except | join
    ast: ast.AST | None = None
    succ: list[tuple[int, str]] = field(default_factory=list)
    pred: list[tuple[int, str]] = field(default_factory=list)

    @property
    def lineno(self) -> int:
        return getattr(self.ast, "lineno", 0)


class CFG:
    def __init__(self, fn: ast.FunctionDef):
        self.fn = fn
        self.nodes: list[Node] = []
        self.entry = self._new("entry")
        self.exit = self._new("exit")
        self.rexit = self._new("rexit")
        self._handlers: list[list[int]] = []  # stack of handler-entry node ids
        self._loops: list[tuple[int, list[int]]] = []  # (header id, break sources)
        ends = self._body(fn.body, [(self.entry.id, "next")])
        for s, lab in ends:
            self._edge(s, self.exit.id, lab)
        for n in self.nodes:
            for t, lab in n.succ:
                self.nodes[t].pred.append((n.id, lab))

    # -- construction --------------------------------------------------------
    def _new(self, kind, node=None) -> Node:
        n = Node(len(self.nodes), kind, node)
        self.nodes.append(n)
        return n

    def _edge(self, a: int, b: int, lab: str) -> None:
        if (b, lab) not in self.nodes[a].succ:
            self.nodes[a].succ.append((b, lab))

    def _link(self, preds, n: Node) -> None:
        for s, lab in preds:
            self._edge(s, n.id, lab)

    def _exc_targets(self) -> list[int]:
        return self._handlers[-1] if self._handlers else [self.rexit.id]

    def _add_exc(self, n: Node) -> None:
        """Any node that evaluates an expression may raise: exceptional successor."""
        for h in self._exc_targets():
            self._edge(n.id, h, "exc")

    def _body(self, stmts, preds):
        for st in stmts:
            preds = self._stmt(st, preds)
        return preds

    def _stmt(self, st, preds):
        if isinstance(st, (ast.FunctionDef, ast.AsyncFunctionDef, ast.ClassDef, ast.Import, ast.ImportFrom, ast.Global, ast.Nonlocal)):
            n = self._new("stmt", st)
            self._link(preds, n)
            return [(n.id, "next")]
        if isinstance(st, (ast.Assign, ast.AugAssign, ast.AnnAssign, ast.Expr, ast.Delete, ast.Pass, ast.Assert)):
            n = self._new("stmt", st)
            self._link(preds, n)
            if not isinstance(st, ast.Pass):
                self._add_exc(n)
            return [(n.id, "next")]
        if isinstance(st, ast.Return):
            n = self._new("stmt", st)
            self._link(preds, n)
            if st.value is not None:
                self._add_exc(n)
            self._edge(n.id, self.exit.id, "return")
            return []
        if isinstance(st, ast.Raise):
            n = self._new("stmt", st)
            self._link(preds, n)
            for h in self._exc_targets():
                self._edge(n.id, h, "raise")
            if self._handlers:  # handler types may not match: may also propagate
                pass
            return []
        if isinstance(st, ast.If):
            t = self._new("test", st)
            self._link(preds, t)
            self._add_exc(t)
            a = self._body(st.body, [(t.id, "true")])
            b = self._body(st.orelse, [(t.id, "false")]) if st.orelse else [(t.id, "false")]
            return a + b
        if isinstance(st, ast.While):
            t = self._new("test", st)
            self._link(preds, t)
            self._add_exc(t)
            self._loops.append((t.id, []))
            body_end = self._body(st.body, [(t.id, "true")])
            for s, lab in body_end:
                self._edge(s, t.id, "loop" if lab == "next" else lab)
            _, breaks = self._loops.pop()
            out = [(t.id, "false")]
            if isinstance(st.test, ast.Constant) and st.test.value is True:
                out = []
            if st.orelse:
                out = self._body(st.orelse, out)
            return out + [(b, "break") for b in breaks]
        if isinstance(st, ast.For):
            h = self._new("for", st)
            self._link(preds, h)
            self._add_exc(h)
            self._loops.append((h.id, []))
            body_end = self._body(st.body, [(h.id, "true")])
            for s, lab in body_end:
                self._edge(s, h.id, "loop" if lab == "next" else lab)
            _, breaks = self._loops.pop()
            out = [(h.id, "exit")]
            if st.orelse:
                out = self._body(st.orelse, out)
            return out + [(b, "break") for b in breaks]
        if isinstance(st, ast.Break):
            n = self._new("stmt", st)
            self._link(preds, n)
            if not self._loops:
                raise AnalysisError("break outside loop")
            self._loops[-1][1].append(n.id)
            return []
        if isinstance(st, ast.Continue):
            n = self._new("stmt", st)
            self._link(preds, n)
            self._edge(n.id, self._loops[-1][0], "continue")
            return []
        if isinstance(st, ast.Try):
            hs = [self._new("except", h) for h in st.handlers]
            fin_needed = bool(st.finalbody)
            start = self._new("join", st)
            self._link(preds, start)
            if hs:
                self._handlers.append([h.id for h in hs])
                # an unmatched exception type propagates outwards as well
                outer = self._handlers[-2] if len(self._handlers) > 1 else [self.rexit.id]
                catch_all = any(h.type is None or (isinstance(h.type, ast.Name) and h.type.id in ("Exception", "BaseException")) for h in st.handlers)
                body_end = self._body(st.body, [(start.id, "next")])
                self._handlers.pop()
                if not catch_all:
                    for h in hs:
                        for o in outer:
                            self._edge(h.id, o, "exc")
            else:
                body_end = self._body(st.body, [(start.id, "next")])
            if st.orelse:
                body_end = self._body(st.orelse, body_end)
            ends = list(body_end)
            for h in hs:
                ends += self._body(h.ast.body, [(h.id, "next")])
            if fin_needed:
                ends = self._body(st.finalbody, ends)
            return ends
        if isinstance(st, (ast.With, ast.AsyncWith)):
            n = self._new("stmt", st)  # evaluates the context expressions
            self._link(preds, n)
            self._add_exc(n)
            return self._body(st.body, [(n.id, "next")])
        raise AnalysisError(f"unsupported statement kind {type(st).__name__} at line {st.lineno}")

    # -- queries ---------------------------------------------------------------
    def stmt_nodes(self):
        return [n for n in self.nodes if n.kind in ("stmt", "test", "for", "except")]

    def node_of(self, a: ast.AST) -> Node | None:
        for n in self.nodes:
            if n.ast is a:
                return n
        return None

    def containing(self, sub: ast.AST) -> Node | None:
        """The CFG node whose own (non-nested-statement) expressions contain `sub`."""
        for n in self.nodes:
            if n.ast is None:
                continue
            for e in own_exprs(n):
                for x in ast.walk(e):
                    if x is sub:
                        return n
        return None

    def dominators(self, include_exc=True) -> dict[int, set[int]]:
        ids = [n.id for n in self.nodes]
        full = set(ids)
        dom = {i: set(full) for i in ids}
        dom[self.entry.id] = {self.entry.id}
        changed = True
        order = self.rpo()
        while changed:
            changed = False
            for i in order:
                if i == self.entry.id:
                    continue
                ps = [p for p, lab in self.nodes[i].pred if include_exc or lab not in ("exc",)]
                ps = [p for p in ps if p in self._reachable]
                if not ps:
                    new = {i}
                else:
                    new = set.intersection(*(dom[p] for p in ps)) | {i}
                if new != dom[i]:
                    dom[i] = new
                    changed = True
        return dom

    def rpo(self) -> list[int]:
        seen, out = set(), []

        def dfs(i):
            stack = [(i, iter(self.nodes[i].succ))]
            seen.add(i)
            while stack:
                j, it = stack[-1]
                for t, _ in it:
                    if t not in seen:
                        seen.add(t)
                        stack.append((t, iter(self.nodes[t].succ)))
                        break
                else:
                    out.append(j)
                    stack.pop()

        dfs(self.entry.id)
        self._reachable = set(seen)
        return out[::-1]

    def reachable_from(self, start: int, skip_labels=()) -> set[int]:
        seen, todo = set(), [start]
        while todo:
            i = todo.pop()
            for t, lab in self.nodes[i].succ:
                if lab in skip_labels:
                    continue
                if t not in seen:
                    seen.add(t)
                    todo.append(t)
        return seen


def own_exprs(n: Node) -> list[ast.AST]:
    """Expressions evaluated *by this node* (not by nested statements)."""
    a = n.ast
    if a is None:
        return []
    if n.kind == "test":
        return [a.test]
    if n.kind == "for":
        return [a.iter, a.target]
    if n.kind == "except":
        return [a.type] if a.type is not None else []
    if n.kind == "join":
        return []
    if isinstance(a, (ast.With, ast.AsyncWith)):
        out = []
        for it in a.items:
            out.append(it.context_expr)
            if it.optional_vars is not None:
                out.append(it.optional_vars)
        return out
    if isinstance(a, (ast.FunctionDef, ast.AsyncFunctionDef, ast.ClassDef)):
        return []
    return [a]


# ---------------------------------------------------------------- evaluation order
def eval_order(node: ast.AST):
    """Yield (role, astnode) in the order CPython performs loads / calls / stores.

    roles: 'load' (Name/Attribute/Subscript read), 'call', 'store', 'del', 'aug'
    (the in-place read-modify-write of an augmented assignment target).
    """
    yield from _ev(node)


def _ev(n):
    if n is None:
        return
    if isinstance(n, ast.Assign):
        yield from _ev(n.value)
        for t in n.targets:
            yield from _store(t)
    elif isinstance(n, ast.AnnAssign):
        if n.value is not None:
            yield from _ev(n.value)
            yield from _store(n.target)
    elif isinstance(n, ast.AugAssign):
        t = n.target
        if isinstance(t, ast.Attribute):
            yield from _ev(t.value)
        elif isinstance(t, ast.Subscript):
            yield from _ev(t.value)
            yield from _ev(t.slice)
        yield ("load", t)
        yield from _ev(n.value)
        yield ("aug", n)
    elif isinstance(n, ast.Expr):
        yield from _ev(n.value)
    elif isinstance(n, ast.Return):
        yield from _ev(n.value)
    elif isinstance(n, ast.Raise):
        yield from _ev(n.exc)
        yield from _ev(n.cause)
    elif isinstance(n, ast.Assert):
        yield from _ev(n.test)
        yield from _ev(n.msg)
    elif isinstance(n, ast.Delete):
        for t in n.targets:
            if isinstance(t, ast.Attribute):
                yield from _ev(t.value)
            elif isinstance(t, ast.Subscript):
                yield from _ev(t.value)
                yield from _ev(t.slice)
            yield ("del", t)
    elif isinstance(n, ast.Call):
        yield from _ev(n.func)
        for a in n.args:
            yield from _ev(a)
        for k in n.keywords:
            yield from _ev(k.value)
        yield ("call", n)
    elif isinstance(n, ast.Attribute):
        yield from _ev(n.value)
        if isinstance(n.ctx, ast.Load):
            yield ("load", n)
    elif isinstance(n, ast.Subscript):
        yield from _ev(n.value)
        yield from _ev(n.slice)
        if isinstance(n.ctx, ast.Load):
            yield ("load", n)
    elif isinstance(n, ast.Name):
        if isinstance(n.ctx, ast.Load):
            yield ("load", n)
    elif isinstance(n, (ast.ListComp, ast.SetComp, ast.GeneratorExp)):
        for g in n.generators:
            yield from _ev(g.iter)
            yield from _store(g.target)
            for c in g.ifs:
                yield from _ev(c)
        yield from _ev(n.elt)
    elif isinstance(n, ast.DictComp):
        for g in n.generators:
            yield from _ev(g.iter)
            yield from _store(g.target)
            for c in g.ifs:
                yield from _ev(c)
        yield from _ev(n.key)
        yield from _ev(n.value)
    elif isinstance(n, ast.Lambda):
        return
    elif isinstance(n, (ast.FunctionDef, ast.AsyncFunctionDef, ast.ClassDef)):
        return
    elif isinstance(n, ast.stmt):
        for c in ast.iter_child_nodes(n):
            yield from _ev(c)
    elif isinstance(n, ast.AST):
        for c in ast.iter_child_nodes(n):
            yield from _ev(c)


def _store(t):
    if isinstance(t, ast.Name):
        yield ("store", t)
    elif isinstance(t, ast.Attribute):
        yield from _ev(t.value)
        yield ("store", t)
    elif isinstance(t, ast.Subscript):
        yield from _ev(t.value)
        yield from _ev(t.slice)
        yield ("store", t)
    elif isinstance(t, (ast.Tuple, ast.List)):
        for e in t.elts:
            yield from _store(e)
    elif isinstance(t, ast.Starred):
        yield from _store(t.value)


def node_events(n: Node):
    for e in own_exprs(n):
        if n.kind == "for" and e is n.ast.target:
            yield from _store(e)
        else:
            yield from _ev(e)


# ---------------------------------------------------------------- dataflow
def forward(cfg: CFG, init, transfer, join, edge_filter=None, max_iter=10000):
    """Generic forward dataflow.  `transfer(node, in_state, label) -> out_state` may depend on
    the outgoing edge label (so a test node can refine per branch).  States must be
    comparable with ==.  Returns IN states per node id (None = unreachable)."""
    IN: dict[int, object] = {n.id: None for n in cfg.nodes}
    IN[cfg.entry.id] = init
    work = [cfg.entry.id]
    it = 0
    while work:
        it += 1
        if it > max_iter:
            raise AnalysisError("dataflow did not converge")
        i = work.pop(0)
        n = cfg.nodes[i]
        for t, lab in n.succ:
            if edge_filter and not edge_filter(n, t, lab):
                continue
            out = transfer(n, IN[i], lab)
            if out is None:
                continue
            new = out if IN[t] is None else join(IN[t], out)
            if new != IN[t]:
                IN[t] = new
                if t not in work:
                    work.append(t)
    return IN
