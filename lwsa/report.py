"""Obligations -> stdout lines, evidence json, violation replay files, known-findings match."""

from __future__ import annotations

import json
import os
import time
from dataclasses import asdict, dataclass, field
from pathlib import Path

from .source import AnalysisError

VERIF = Path(__file__).resolve().parent.parent
EVIDENCE = VERIF / "evidence"
KNOWN = VERIF / "known_findings.json"


@dataclass
class Ob:
    rule: str
    instance: str
    site: str
    qualname: str
    status: str  # ok | violation
    why: str
    construct: str = ""
    path: list = field(default_factory=list)

    def key(self):
        return (self.rule, self.qualname, self.construct)


@dataclass
class Result:
    prop: str
    obligations: list = field(default_factory=list)
    stats: dict = field(default_factory=dict)
    floors: dict = field(default_factory=dict)  # name -> (measured, minimum)
    explanation: str = ""
    assumptions: list = field(default_factory=list)
    notes: list = field(default_factory=list)
    extra: dict = field(default_factory=dict)

    def ok(self, rule, instance, site, qualname, why="", construct=""):
        self.obligations.append(Ob(rule, instance, site, qualname, "ok", why, construct))

    def bad(self, rule, instance, site, qualname, why, construct="", path=None):
        self.obligations.append(Ob(rule, instance, site, qualname, "violation", why, construct, path or []))

    def add(self, cond, rule, instance, site, qualname, why_ok="", why_bad="", construct=""):
        if cond:
            self.ok(rule, instance, site, qualname, why_ok, construct)
        else:
            self.bad(rule, instance, site, qualname, why_bad or why_ok, construct)

    def frozen(self, cond, rule, instance, site, qualname, why_ok="", why_undecided="", construct=""):
        """An obligation recognised through the *current idiom* of the code.  When the idiom is not
        found the check cannot decide (the edit may be a behaviour-preserving rewrite): that is an
        ANALYSIS-ERROR (exit 2), never a VIOLATION."""
        if cond:
            self.ok(rule, instance, site, qualname, why_ok, construct)
        else:
            self.obligations.append(Ob(rule, instance, site, qualname, "undecided", why_undecided or why_ok, construct))

    def floor(self, name: str, measured: int, minimum: int):
        self.floors[name] = (measured, minimum)

    def count(self, name: str, n: int = 1):
        self.stats[name] = self.stats.get(name, 0) + n


def load_known() -> dict:
    if not KNOWN.exists():
        return {"findings": [], "fixed": []}
    return json.loads(KNOWN.read_text())


def _norm(s: str) -> str:
    return " ".join(s.split())


def match_known(prop: str, ob: Ob, known: dict):
    for f in known.get("findings", []):
        if f.get("property") != prop:
            continue
        if f.get("rule") and f["rule"] != ob.rule:
            continue
        if f.get("qualname") and f["qualname"] != ob.qualname:
            continue
        c = _norm(f.get("construct", ""))
        if c and c not in _norm(ob.construct):
            continue
        return f
    return None


def finish(res: Result, tier: str, t0: float, level: str = "other") -> int:
    """Print the verdict, write evidence, return the exit code (0/1)."""
    prop = res.prop
    known = load_known()
    viols, knowns = [], []
    for ob in res.obligations:
        if ob.status == "violation":
            f = match_known(prop, ob, known)
            if f:
                knowns.append((ob, f))
            else:
                viols.append(ob)
    # floors: a rule that matches too little passes vacuously -> analysis broken.  A violation that
    # was found is still a violation, so floors only stop a run that would otherwise pass.
    undec = [ob for ob in res.obligations if ob.status == "undecided"]
    # Obligations that recognise a plumbing idiom and did not find it are *undecided*: they are printed and
    # counted in the evidence (obligations > discharged) but are neither a violation nor an analysis failure -
    # the fragment may have been rewritten without changing behaviour, and this family cannot tell.
    for ob in undec[:8]:
        print(f"UNDECIDED {ob.rule} {ob.site} {ob.qualname}: {ob.why}")
    if not viols:
        for name, (m, mn) in res.floors.items():
            if m < mn:
                raise AnalysisError(f"floor not met for {name}: {m} < {mn} (rule would pass vacuously)")
    by_rule: dict[str, list[int]] = {}
    for ob in res.obligations:
        r = by_rule.setdefault(ob.rule, [0, 0])
        r[0] += 1
        r[1] += ob.status == "ok"
    for rule in sorted(by_rule):
        n, okn = by_rule[rule]
        print(f"RULE {rule}: {okn}/{n} obligations discharged")
    stats = " ".join(f"{k}={v}" for k, v in sorted(res.stats.items()))
    print(f"ANALYSED property={prop} tier={tier} {stats}")
    for name, (m, mn) in sorted(res.floors.items()):
        print(f"FLOOR {name}: {m} (minimum {mn})")
    for n in res.notes:
        print(f"NOTE {n}")
    seenk = set()
    for ob, f in knowns:
        if f.get("id") in seenk:
            continue
        seenk.add(f.get("id"))
        print(f"KNOWN-FINDING: property={prop} {f.get('id', '')} {f.get('what_fails', ob.why)} [{ob.rule} at {ob.site} {ob.qualname}]")
    vdir = EVIDENCE / "violations"
    if viols:
        vdir.mkdir(parents=True, exist_ok=True)
    for k, ob in enumerate(viols):
        p = vdir / f"{prop}-{k}.json"
        p.write_text(json.dumps({"property": prop, **asdict(ob)}, indent=1))
        print(f"REPORT {ob.rule} {ob.site} {ob.qualname}: {ob.why}" + (f"  [{ob.construct[:160]}]" if ob.construct else ""))
        print(f"VIOLATION property={prop} replay={p}")
    # evidence
    distinct = len({(o.rule, o.instance, o.site) for o in res.obligations})
    samples = []
    seen_rules = set()
    for ob in res.obligations:
        if ob.rule not in seen_rules or ob.status != "ok":
            seen_rules.add(ob.rule)
            samples.append({"rule": ob.rule, "instance": ob.instance, "site": ob.site, "function": ob.qualname, "status": ob.status, "why": ob.why[:300]})
        if len(samples) >= 40:
            break
    n_ok = sum(o.status == "ok" for o in res.obligations)
    ev = {
        "property_id": prop,
        "tier": tier,
        "seed": int(os.environ.get("VERIF_SEED", "0") or 0),
        "level": level,
        "coverage": {
            "explanation": res.explanation,
            "obligations": len(res.obligations),
            "discharged": n_ok + len(knowns),
            "evaluations": len(res.obligations),
            "distinct_nontrivial": distinct,
            "rule": "one obligation per (rule, instance, site) enumerated from /repo's current source; non-trivial = the rule's pattern matched a construct in the tree (vacuous rules are excluded by floors)",
            "rule_instances": {r: v[0] for r, v in sorted(by_rule.items())},
            "floors": {k: {"measured": m, "minimum": mn} for k, (m, mn) in res.floors.items()},
            "stats": res.stats,
            "samples": samples,
            "checker_cmd": f"/venv/bin/python -m lwsa check {prop} --tier {tier}",
            "trusted_base": ["CPython 3.12 ast module", "lwsa library-call model tables (copy/deepcopy/list/dict/numpy constructors)", "frozen reference tables listed in DESIGN.md"],
            "known_findings_matched": [f.get("id") for _, f in knowns],
            "undecided": [{"rule": o.rule, "instance": o.instance, "site": o.site, "why": o.why[:200]} for o in undec],
            "exhaustive": True,
            "notes": res.notes,
            **res.extra,
        },
        "assumptions": res.assumptions,
        "wall_s": round(time.time() - t0, 3),
        "violations": len(viols),
    }
    EVIDENCE.mkdir(exist_ok=True)
    (EVIDENCE / f"{prop}.json").write_text(json.dumps(ev, indent=1))
    if viols:
        return 1
    print(f"OK property={prop} obligations={len(res.obligations)} discharged={n_ok} known={len(knowns)} undecided={len(undec)}")
    return 0
