"""A small evaluator for code that shuffles a fixed number of opaque tokens between tuples, lists and dictionaries
(`a0, a1 = qubit_1`, `modes = [*qubit_1, *qubit_2]`, `for x, y in zip(modes[:2], modes[2:]): d[x] = y`).

Parameters are bound to tuples of symbolic tokens; the value of an expression is a token, a list of values, or a
dict {token: token}.  Statements outside the fragment are skipped when they cannot touch tracked names, otherwise the
evaluation gives up (Unknown) and the caller reports `undecided`.  Nothing of the repository is executed."""

from __future__ import annotations

import ast

from .source import src


class Unknown(Exception):
    pass


class Eval:
    def __init__(self, env: dict):
        self.env = dict(env)

    def ev(self, e):
        if isinstance(e, ast.Name):
            if e.id in self.env:
                return self.env[e.id]
            raise Unknown(e.id)
        if isinstance(e, (ast.Tuple, ast.List)):
            out = []
            for x in e.elts:
                if isinstance(x, ast.Starred):
                    v = self.ev(x.value)
                    if not isinstance(v, list):
                        raise Unknown("star of a non-sequence")
                    out += v
                else:
                    out.append(self.ev(x))
            return out
        if isinstance(e, ast.Subscript):
            base = self.ev(e.value)
            if isinstance(base, dict):
                k = self.ev(e.slice)
                if k in base:
                    return base[k]
                raise Unknown("missing key")
            if not isinstance(base, list):
                raise Unknown("subscript of a token")
            sl = e.slice
            if isinstance(sl, ast.Slice):
                return base[self._int(sl.lower, None):self._int(sl.upper, None):self._int(sl.step, None)]
            return base[self._int(sl, None)]
        if isinstance(e, ast.Dict):
            d = {}
            for k, v in zip(e.keys, e.values):
                if k is None:
                    inner = self.ev(v)
                    if not isinstance(inner, dict):
                        raise Unknown("dict splat")
                    d.update(inner)
                else:
                    d[self.ev(k)] = self.ev(v)
            return d
        if isinstance(e, ast.Call):
            f = src(e.func)
            if f == "zip":
                seqs = [self.ev(a) for a in e.args]
                if not all(isinstance(s, list) for s in seqs):
                    raise Unknown("zip of non-sequences")
                return [list(t) for t in zip(*seqs)]
            if f in ("list", "tuple") and len(e.args) == 1:
                v = self.ev(e.args[0])
                return list(v) if isinstance(v, list) else v
            if f == "dict" and len(e.args) == 1:
                v = self.ev(e.args[0])
                if isinstance(v, list) and all(isinstance(p, list) and len(p) == 2 for p in v):
                    return {p[0]: p[1] for p in v}
                if isinstance(v, dict):
                    return dict(v)
            if f == "reversed" and len(e.args) == 1:
                v = self.ev(e.args[0])
                if isinstance(v, list):
                    return list(reversed(v))
        if isinstance(e, ast.DictComp) and len(e.generators) == 1 and not e.generators[0].ifs:
            g = e.generators[0]
            it = self.ev(g.iter)
            if not isinstance(it, list):
                raise Unknown("comprehension over a non-sequence")
            d = {}
            saved = dict(self.env)
            for x in it:
                self.bind(g.target, x)
                d[self.ev(e.key)] = self.ev(e.value)
            self.env = saved
            return d
        if isinstance(e, ast.BinOp) and isinstance(e.op, ast.Add):
            a, b = self.ev(e.left), self.ev(e.right)
            if isinstance(a, list) and isinstance(b, list):
                return a + b
        if isinstance(e, ast.BinOp) and isinstance(e.op, ast.BitOr):
            a, b = self.ev(e.left), self.ev(e.right)
            if isinstance(a, dict) and isinstance(b, dict):
                return {**a, **b}
        raise Unknown(src(e)[:60])

    @staticmethod
    def _int(e, default):
        if e is None:
            return default
        if isinstance(e, ast.Constant) and isinstance(e.value, int):
            return e.value
        if isinstance(e, ast.UnaryOp) and isinstance(e.op, ast.USub) and isinstance(e.operand, ast.Constant):
            return -e.operand.value
        raise Unknown("non-constant index")

    def bind(self, target, v):
        if isinstance(target, ast.Name):
            self.env[target.id] = v
        elif isinstance(target, (ast.Tuple, ast.List)):
            if not isinstance(v, list) or len(v) != len(target.elts):
                raise Unknown("unpacking")
            for t, x in zip(target.elts, v):
                self.bind(t, x)
        else:
            raise Unknown("binding target")

    def names(self, node):
        return {x.id for x in ast.walk(node) if isinstance(x, ast.Name)}

    def run(self, stmts):
        for st in stmts:
            if isinstance(st, ast.Assign) and len(st.targets) == 1:
                t = st.targets[0]
                if isinstance(t, ast.Subscript) and isinstance(t.value, ast.Name) and isinstance(self.env.get(t.value.id), dict):
                    self.env[t.value.id][self.ev(t.slice)] = self.ev(st.value)
                    continue
                try:
                    v = self.ev(st.value)
                except Unknown:
                    for nm in self.names(t):
                        self.env.pop(nm, None)
                    continue
                try:
                    self.bind(t, v)
                except Unknown:
                    for nm in self.names(t):
                        self.env.pop(nm, None)
            elif isinstance(st, ast.AnnAssign) and st.value is not None and isinstance(st.target, ast.Name):
                try:
                    self.env[st.target.id] = self.ev(st.value)
                except Unknown:
                    self.env.pop(st.target.id, None)
            elif isinstance(st, ast.For):
                try:
                    it = self.ev(st.iter)
                except Unknown:
                    # a loop over something untracked: it must not store into tracked names
                    stored = {x.id for x in ast.walk(st) if isinstance(x, ast.Name) and isinstance(x.ctx, ast.Store)}
                    sub = {x.value.id for x in ast.walk(st) if isinstance(x, ast.Subscript) and isinstance(x.ctx, ast.Store) and isinstance(x.value, ast.Name)}
                    for nm in (stored | sub) & set(self.env):
                        self.env.pop(nm, None)
                    continue
                if not isinstance(it, list):
                    raise Unknown("loop over a token")
                for x in it:
                    self.bind(st.target, x)
                    self.run(st.body)
            elif isinstance(st, ast.If):
                # guards that raise do not change tracked values; other branches are not followed
                if all(isinstance(b, ast.Raise) for b in st.body) and not st.orelse:
                    continue
                stored = {x.id for x in ast.walk(st) if isinstance(x, ast.Name) and isinstance(x.ctx, ast.Store)}
                for nm in stored & set(self.env):
                    self.env.pop(nm, None)
            # expression statements, raises, returns: no effect on tracked names
